/-
  Model/TemplateMacro.lean — C16, macro-built templates. Mirrors
    * fv_template 0.5.1 `LiteralPart::parse_lit2` / `ScanPart` (the scanner behind `emit::tpl!`, `evt!`, `emit!`, `format!`:
      /repo/macros/src/template.rs:14-15 calls `fv_template::Template::parse2`), src/lib.rs:279-352, 472-681
    * /repo/macros/src/template.rs:131-199 `TemplateVisitor` (text → `Part::text(unescape_text(text))`, hole →
      `Part::hole_str(label)` with the `#[emit::fmt]` hook applied) and :88-100 (the parts array); after
      `fix: evaluate escape sequences in the text of macro template literals`
    * /repo/macros/src/fmt.rs:75-84, 100-113 (`#[emit::fmt(FLAGS)]` → `Formatter::new(|v, f| write!(f, "{:FLAGS}", v))`)
    * the subset of `core::fmt` padding the fixtures use (`Formatter::pad`, `pad_integral`)
  The scanner works on the SOURCE text of the literal (`Literal::to_string()`), here: the characters between the quotes.
-/
import EmitModel.Model.Template

namespace EmitModel.TemplateMacro
open EmitModel.Template

/-! ### fv_template: splitting the literal into raw text fragments and hole sources -/

/-- A raw piece of the literal: a text fragment as sliced from the source (with the `escaped` flag of
    `take_until_eof_or_hole_start`) or the source of a hole (with the `escaped` flag of `take_until_hole_end`). -/
inductive RawSeg where
  | text (raw : List Char) (escaped : Bool)
  | hole (raw : List Char) (escaped : Bool)
  deriving Repr, DecidableEq

/-- State of `take_until_hole_end` (lib.rs:572-577). -/
structure HoleSt where
  depth : Nat := 1
  term : Option Char := none
  nte : Bool := false          -- next_terminator_escaped
  esc : Bool := false
  deriving Repr, DecidableEq

/-- `take_until(..)` returns `None` for an empty slice (lib.rs:504-507): no text part is pushed. -/
def flushText (cur : List Char) (esc : Bool) : List RawSeg :=
  if cur.isEmpty then [] else [.text cur esc]

mutual
/-- `Expecting::TextOrEOF` → `take_until_eof_or_hole_start` (lib.rs:510-560); `cur` is the slice scanned so far. -/
def textMode (cur : List Char) (esc : Bool) : List Char → Option (List RawSeg)
  | [] => some (flushText cur esc)                                           -- end of input: the rest is text
  | c :: rest =>
    if c = '{' then
      match rest with
      | [] => none                                                           -- incomplete_hole (:528)
      | d :: rest' =>
        if d = '{' then textMode (cur ++ ['{', '{']) true rest'               -- escaped `{{` (:522-526)
        else (flushText cur esc ++ ·) <$> holeMode [] {} (d :: rest')        -- hole start (:527)
    else if c = '}' then
      match rest with
      | [] => none                                                           -- unescaped_hole (:552)
      | d :: rest' =>
        if d = '}' then textMode (cur ++ ['}', '}']) true rest'               -- escaped `}}` (:541-545)
        else none                                                            -- unescaped_hole (:546)
    else textMode (cur ++ [c]) esc rest
/-- `Expecting::Hole` → `take_until_hole_end` (lib.rs:572-681); match arms in order. -/
def holeMode (cur : List Char) (st : HoleSt) : List Char → Option (List RawSeg)
  | [] => none                                                               -- incomplete_hole (:659-665)
  | c :: rest =>
    let peek := rest.head?
    if st.term = none ∧ c = '}' ∧ st.depth = 1 then                          -- (:586-589) end of the hole
      if cur.isEmpty then none                                               -- missing_expr (:674)
      else (RawSeg.hole cur st.esc :: ·) <$> textMode [] false rest
    else if st.term = none ∧ c = '}' then holeMode (cur ++ [c]) { st with depth := st.depth - 1 } rest
    else if st.term = none ∧ c = '{' then holeMode (cur ++ [c]) { st with depth := st.depth + 1 } rest
    else if st.term = none ∧ c = '"' then holeMode (cur ++ [c]) { st with term := some '"' } rest
    else if st.term = none ∧ c = '\'' then holeMode (cur ++ [c]) { st with term := some '\'' } rest
    else if c = '\\' ∧ peek = some '\\' then holeMode (cur ++ [c]) { st with nte := !st.nte, esc := true } rest
    else if c = '\\' then holeMode (cur ++ [c]) { st with esc := true } rest
    else if c = '/' ∧ (peek = some '/' ∨ peek = some '*') then none          -- unsupported_comment (:631-643)
    else if some c = st.term ∧ st.nte = false then holeMode (cur ++ [c]) { st with term := none } rest
    else holeMode (cur ++ [c]) { st with nte := false } rest
end

/-- `parse_lit2` (lib.rs:279-352): the empty literal is one empty text part; otherwise alternate text / hole. -/
def segments (src : List Char) : Option (List RawSeg) :=
  if src.isEmpty then some [.text [] false] else textMode [] false src

/-- `str::replace(cc, c)` for a doubled character `cc`: leftmost non-overlapping matches. -/
def replaceDouble (c : Char) : List Char → List Char
  | [] => []
  | [a] => [a]
  | a :: t@(b :: r) => if a = c ∧ b = c then c :: replaceDouble c r else a :: replaceDouble c t

/-- `str::replace("\\\"", "\"")` (lib.rs:670). -/
def replaceBsQuote : List Char → List Char
  | [] => []
  | [a] => [a]
  | a :: t@(b :: r) => if a = '\\' ∧ b = '"' then '"' :: replaceBsQuote r else a :: replaceBsQuote t

/-- The text a `LiteralPart::Text` carries (lib.rs:562-569): `{{`→`{` then `}}`→`}` when the scan saw an escape. -/
def finishText (raw : List Char) (escaped : Bool) : List Char :=
  if escaped then replaceDouble '}' (replaceDouble '{' raw) else raw

/-- The simple escapes of a Rust string literal. -/
def escChar (e : Char) : Option Char :=
  if e = 'n' then some '\n' else if e = 'r' then some '\r' else if e = 't' then some '\t'
  else if e = '\\' then some '\\' else if e = '0' then some (Char.ofNat 0)
  else if e = '\'' then some '\'' else if e = '"' then some '"' else none

def hexVal (c : Char) : Option Nat :=
  if '0' ≤ c ∧ c ≤ '9' then some (c.toNat - '0'.toNat)
  else if 'a' ≤ c ∧ c ≤ 'f' then some (c.toNat - 'a'.toNat + 10)
  else if 'A' ≤ c ∧ c ≤ 'F' then some (c.toNat - 'A'.toNat + 10)
  else none

/-- `\xHH` (at most 0x7F in a string literal). -/
def hexEsc (h l : Char) : Option Char :=
  match hexVal h, hexVal l with
  | some a, some b => if a < 8 then some (Char.ofNat (a * 16 + b)) else none
  | _, _ => none

/-- Where the reader of a string literal body is: between units, after `\\`, after `\\x`, after `\\xH`. -/
inductive EscSt where
  | normal
  | bs
  | x
  | xh (h : Char)
  deriving Repr, DecidableEq

/-- `syn::LitStr::value` of `"text"`: the escapes of a Rust string literal, one character at a time.
    `none` = not a literal body the model covers: a dangling or unknown escape (syn: error), `\\u{…}` (cannot reach here:
    its braces make fv_template see a hole) and the line continuation `\\<newline>` (not modelled). -/
def unescapeSt : EscSt → List Char → Option (List Char)
  | .normal, [] => some []
  | _, [] => none
  | .normal, c :: r => if c = '\\' then unescapeSt .bs r else (c :: ·) <$> unescapeSt .normal r
  | .bs, e :: r =>
    if e = 'x' then unescapeSt .x r
    else match escChar e with
      | some ch => (ch :: ·) <$> unescapeSt .normal r
      | none => none
  | .x, h :: r => unescapeSt (.xh h) r
  | .xh h, l :: r =>
    match hexEsc h l with
    | some ch => (ch :: ·) <$> unescapeSt .normal r
    | none => none

def unescape (text : List Char) : Option (List Char) := unescapeSt .normal text

/-- `unescape_text` (macros/src/template.rs:189-199): untouched unless there is a backslash. -/
def unescapeText (text : List Char) : Option (List Char) :=
  if text.contains '\\' then unescape text else some text

/-- The expression source a `LiteralPart::Hole` is parsed from (lib.rs:667-673). -/
def finishHole (raw : List Char) (escaped : Bool) : List Char :=
  if escaped then replaceBsQuote raw else raw

/-! ### The hole as a field-value (syn `FieldValue`; only what the visitor reads: attributes, key identifier) -/

def isWs (c : Char) : Bool := c = ' ' || c = '\t' || c = '\n' || c = '\r'
/-- Identifier characters; non-ASCII characters are accepted without consulting the XID tables (approximation). -/
def isIdentChar (c : Char) : Bool := c.isAlphanum || c = '_' || 128 ≤ c.toNat

/-- Split `#[ … ]` off the front: returns the attribute body and the rest. Brackets nest; string literals are opaque. -/
def takeAttr : Nat → Bool → List Char → List Char → Option (List Char × List Char)
  | _, _, _, [] => none
  | depth, inStr, acc, c :: rest =>
    if inStr then
      (if c = '"' then takeAttr depth false (acc ++ [c]) rest else takeAttr depth true (acc ++ [c]) rest)
    else if c = '"' then takeAttr depth true (acc ++ [c]) rest
    else if c = '[' then takeAttr (depth + 1) false (acc ++ [c]) rest
    else if c = ']' then
      (if depth = 0 then some (acc, rest) else takeAttr (depth - 1) false (acc ++ [c]) rest)
    else takeAttr depth false (acc ++ [c]) rest

/-- `#[emit::fmt("FLAGS")]` / `#[fmt("FLAGS")]`: the flags (no escapes inside the string are supported). -/
def fmtFlagsOfAttr (body : List Char) : Option (Option (List Char)) :=
  let body := body.dropWhile isWs
  let path := body.takeWhile fun c => c ≠ '('
  let path := (path.reverse.dropWhile isWs).reverse
  if path = "emit::fmt".toList ∨ path = "fmt".toList then
    let args := (body.dropWhile fun c => c ≠ '(').drop 1
    let args := args.dropWhile isWs
    match args with
    | '"' :: r =>
      let flags := r.takeWhile fun c => c ≠ '"'
      let tail := ((r.dropWhile fun c => c ≠ '"').drop 1).dropWhile isWs
      if flags.contains '\\' then none
      else if tail = [')'] then some (some flags) else none
    | _ => none
  else some none

/-- Attributes (fuel = number of `#` that can still start one), then the key identifier (`r#` stripped:
    `Ident::unraw`, macros/src/util.rs:15-21). Returns the label and the `#[emit::fmt]` flags found. -/
def parseHole : Nat → Option (List Char) → List Char → Option (List Char × Option (List Char))
  | fuel, flags, src =>
    let src := src.dropWhile isWs
    match src with
    | '#' :: '[' :: r =>
      match fuel with
      | 0 => none
      | fuel + 1 =>
        match takeAttr 0 false [] r with
        | none => none
        | some (body, rest) =>
          match fmtFlagsOfAttr body with
          | none => none
          | some (some f) => parseHole fuel (some f) rest
          | some none => parseHole fuel flags rest
    | _ =>
      let src := match src with
        | 'r' :: '#' :: r => r
        | s => s
      let ident := src.takeWhile isIdentChar
      let rest := (src.dropWhile isIdentChar).dropWhile isWs
      if ident.isEmpty then none
      else if (ident.head?.map Char.isDigit).getD false then none
      else match rest with
        | [] => some (ident, flags)
        | ':' :: _ => some (ident, flags)
        | _ => none

/-! ### The visitor (macros/src/template.rs:131-199) -/

/-- What the generated `__TPL_PARTS` array holds. -/
inductive MPart where
  | text (t : List Char)
  | hole (label : List Char) (flags : Option (List Char))
  deriving Repr, DecidableEq

/-- `visit_text` / `visit_hole`; `ext` = the `#[emit::fmt]` flags given on the extra pairs after the literal (the
    attributes of a hole come from the extra pair of the same name when there is one, template.rs:42-67). -/
def visitSeg (ext : List (List Char × List Char)) : RawSeg → Option MPart
  | .text raw esc => (unescapeText (finishText raw esc)).map MPart.text      -- (:168-186)
  | .hole raw esc =>
    let src := finishHole raw esc
    match parseHole src.length none src with                                 -- (:144-145)
    | none => none
    | some (label, flags) =>
      let flags := match flags with
        | some f => some f
        | none => ext.lookup label
      some (.hole label flags)                                               -- (:155-160)

/-- `visit_literal` (lib.rs:219-226): every part in order; the first error wins (a compile error). -/
def visitAll (ext : List (List Char × List Char)) : List RawSeg → Option (List MPart)
  | [] => some []
  | s :: r =>
    match visitSeg ext s, visitAll ext r with
    | some p, some ps => some (p :: ps)
    | _, _ => none

def macroParts (ext : List (List Char × List Char)) (src : List Char) : Option (List MPart) :=
  match segments src with
  | none => none
  | some segs => visitAll ext segs

/-- The `literal` string the visitor also builds (:151-153, :173; the default span name). -/
def macroLiteral : List MPart → List Char
  | [] => []
  | .text t :: r => t ++ macroLiteral r
  | .hole l _ :: r => '{' :: l ++ '}' :: macroLiteral r

/-! ### To the runtime representation -/

def utf8 (cs : List Char) : List UInt8 := cs.flatMap String.utf8EncodeChar

/-- The runtime parts: formatter number = index of the part (looked up again in `fmtOf`). -/
def toPartsFrom : Nat → List MPart → List Part
  | _, [] => []
  | i, .text t :: r => .text (utf8 t) :: toPartsFrom (i + 1) r
  | i, .hole l f :: r => .hole (utf8 l) (f.map fun _ => i) :: toPartsFrom (i + 1) r

def toParts (ps : List MPart) : List Part := toPartsFrom 0 ps

/-! ### `write!(f, "{:FLAGS}", value)` for the flags the fixtures use -/

inductive Align where
  | left | center | right
  deriving Repr, DecidableEq

structure Spec where
  fill : Char := ' '
  align : Option Align := none
  zero : Bool := false
  width : Option Nat := none
  prec : Option Nat := none
  debug : Bool := false
  deriving Repr

def align? (c : Char) : Option Align :=
  if c = '<' then some .left else if c = '^' then some .center else if c = '>' then some .right else none

def digitsVal (ds : List Char) : Nat := ds.foldl (fun n d => n * 10 + (d.toNat - '0'.toNat)) 0

/-- `format_spec := [[fill]align]['0'][width]['.' precision]['?']` (sign, `#` and the other types are not modelled). -/
def parseSpec (cs : List Char) : Option Spec :=
  let (fill, align, cs) : Char × Option Align × List Char :=
    match cs with
    | f :: a :: r => (match align? a with
      | some al => (f, some al, r)
      | none => (match align? f with
        | some al => (' ', some al, a :: r)
        | none => (' ', none, cs)))
    | [a] => (match align? a with
      | some al => (' ', some al, [])
      | none => (' ', none, cs))
    | [] => (' ', none, [])
  let (zero, cs) : Bool × List Char := match cs with
    | '0' :: r => (true, r)
    | _ => (false, cs)
  let wd := cs.takeWhile Char.isDigit
  let cs := cs.dropWhile Char.isDigit
  let width := if wd.isEmpty then none else some (digitsVal wd)
  let (prec, cs) : Option Nat × List Char := match cs with
    | '.' :: r =>
      let pd := r.takeWhile Char.isDigit
      (some (digitsVal pd), r.dropWhile Char.isDigit)
    | _ => (none, cs)
  match cs with
  | [] => some { fill, align, zero, width, prec, debug := false }
  | ['?'] => some { fill, align, zero, width, prec, debug := true }
  | _ => none

/-- `Formatter::padding`: `n` fill characters distributed by the alignment. -/
def padTo (sp : Spec) (dflt : Align) (body : List Char) : List Char :=
  match sp.width with
  | none => body
  | some w =>
    let n := w - body.length
    match sp.align.getD dflt with
    | .left => body ++ List.replicate n sp.fill
    | .right => List.replicate n sp.fill ++ body
    | .center => List.replicate (n / 2) sp.fill ++ body ++ List.replicate ((n + 1) / 2) sp.fill

/-- `str`'s `Debug` for text that needs no escaping beyond `"` and `\`; anything else is outside the model. -/
def debugStr (cs : List Char) : Option (List Char) :=
  if cs.all fun c => (32 ≤ c.toNat ∧ c.toNat < 127) then
    some (['"'] ++ cs.flatMap (fun c => if c = '"' ∨ c = '\\' then ['\\', c] else [c]) ++ ['"'])
  else none

def chars (bs : List UInt8) : Option (List Char) := (String.fromUTF8? (ByteArray.mk bs.toArray)).map String.toList

/-- The text `write!(f, "{:FLAGS}", value)` produces. `none`: flags or value outside the modelled subset. -/
def applyFlags (flags : List Char) (v : Val) : Option (List UInt8) := do
  let sp ← parseSpec flags
  match v with
  | .int i =>
    -- `pad_integral`: precision ignored; `0` = sign-aware zero padding that overrides fill and alignment
    let neg := decide (i < 0)
    let digits := (toString i.natAbs).toList
    let body := if neg then '-' :: digits else digits
    if sp.zero then
      match sp.width with
      | some w => pure (utf8 ((if neg then ['-'] else []) ++ List.replicate (w - body.length) '0' ++ digits))
      | none => pure (utf8 body)
    else pure (utf8 (padTo sp .right body))
  | .str s =>
    let cs ← chars s
    if sp.debug then
      if sp.prec.isSome then none else
      let q ← debugStr cs
      pure (utf8 (padTo sp .left q))
    else
      let cs := match sp.prec with
        | some p => cs.take p
        | none => cs
      pure (utf8 (padTo sp .left cs))
  | .bool b =>
    let cs := (toString b).toList
    let cs := match sp.prec with
      | some p => cs.take p
      | none => cs
    pure (utf8 (padTo sp .left cs))

/-- The formatter of part number `i`. -/
def flagsAt (ps : List MPart) (i : Nat) : Option (List Char) :=
  match ps[i]? with
  | some (.hole _ f) => f
  | _ => none

end EmitModel.TemplateMacro
