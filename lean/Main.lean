import EmitModel.Driver.All

/-!
  `emit_model <stream>` — reads one case per line on stdin, prints one result line per case.
  A result line is `<canonical output>` optionally followed by a TAB and a branch signature
  (used by `check` only for coverage statistics). Unknown streams / unparseable cases print `bad-op`
  (the driver never defaults).
-/

partial def loop (h : IO.FS.Stream) (out : IO.FS.Stream) (f : String → String) : IO Unit := do
  let line ← h.getLine
  if line.isEmpty then return ()
  let l := if line.endsWith "\n" then (line.dropEnd 1).toString else line
  out.putStrLn (f l)
  loop h out f

def main (args : List String) : IO UInt32 := do
  match args with
  | ["--list"] =>
    for (n, _) in EmitModel.Driver.all do IO.println n
    return 0
  | [stream] =>
    match EmitModel.Driver.all.lookup stream with
    | some f =>
      loop (← IO.getStdin) (← IO.getStdout) f
      return 0
    | none =>
      IO.eprintln s!"unknown stream {stream}"
      return 2
  | _ =>
    IO.eprintln "usage: emit_model <stream>"
    return 2
